"""C05 — results are invariant under relabelling / co-centred unitary rotation of the Wannier basis.

Exhaustive product: systems with 2-4 Wannier functions (two of them sharing a centre) x **all** permutations
passed to the real `System_R.reorder` x every letter of the unitary alphabet applied harness-side as
X_R <- W^+ X_R W (W = U on the co-centred block, 1 elsewhere) to *every* matrix of `_XX_R`
x {cold, warm} (warm = the system's cached properties — reduced centres, shifts, cRvec_shifted — were
populated and the system was already used for an evaluation before the transformation).
Observed: `evaluate_k` tabulators at 3 k-points and `run()` (static, dynamic, tabulating calculators) on the
Gamma-centred 2x2x2 grid.  Oracle: equality with the untransformed system (bands keep their order: the
spectrum is unchanged); plus a reference model of the shift bookkeeping after `reorder`
(rvec.shifts == reduced centres, cRvec_shifted == R + t_j - t_i recomputed from the Cartesian centres).
"""
import itertools

import numpy as np

ID = "C05"
LEVEL = "exploration"
RULE = ("cases = (system, permutation of all Wannier functions, unitary letter per co-centred block, warm/cold); "
        "each case transforms a fresh copy of the system (rotation harness-side, permutation through System_R.reorder) "
        "and compares evaluate_k tabulators at 3 k-points and run() on the 2x2x2 grid with the untransformed system; "
        "non-trivial = permutation != identity or some unitary != I (counted per (system, permutation, letters, warm))")
ASSUMPTIONS = [
    "num_wann <= 4 (all 24 permutations); co-centred blocks of size 2 (6-letter alphabet) and, in thorough, one block of size 3 (4 letters)",
    "unitary alphabet = zoo.unitary_alphabet; invariance under a generating set extends algebraically, arbitrary U(n) is not enumerated",
    "generic (non-degenerate) zoo systems carry every calculator incl. ShiftCurrent/InjectionCurrent/SHC-qiao; for KaneMele (Kramers "
    "degenerate on the whole 2x2 grid) the formulas built on band-diagonal matrix elements are left out (their gauge dependence is C04's finding)",
    "the rotation is applied to all matrices of _XX_R after construction, so AA(R=0) acquires diagonal entries while the shared centre is kept "
    "(the phase factors and derivative factors commute with a rotation among functions of equal centre)",
    "tolerance 1e-8 x |array|_inf (1e-11 x |constant_factor| for arrays that vanish by symmetry)",
    "tetrahedron calculators only in the thorough tier (JIT cost)",
]

RTOL = 1e-8
KPTS = ("gen", "X", "third")


def _Z(nw, lat, cen, mats, rs="shell1"):
    return {"kind": "zoo", "nw": nw, "lat": lat, "rs": rs, "cen": cen, "mats": mats}


PP4 = [[0.2, 0.3, 0.1], [0.2, 0.3, 0.1], [0.7, 0.1, 0.45], [0.7, 0.1, 0.45]]
T3 = [[0.5, 0.5, 0.0], [0.5, 0.5, 0.0], [0.5, 0.5, 0.0], [0.1, 0.8, 0.3]]

# name -> (spec, co-centred blocks, degenerate on the grid?)
SYSTEMS = {
    "z2sh": (_Z(2, "tric", "shared", "full"), [[0, 1]], False),
    "z3sh": (_Z(3, "hex", "shared", "full"), [[0, 1]], False),
    "z4sh": (_Z(4, "tric", "shared", "core"), [[0, 1]], False),
    "KaneMele": ({"kind": "model", "name": "KaneMele"}, [[0, 1]], True),
    "Chiral": ({"kind": "model", "name": "Chiral"}, [], False),
}
SYSTEMS_THOROUGH = {
    "z4pp": (_Z(4, "mono", PP4, "full", rs="lopsided"), [[0, 1], [2, 3]], False),
    "z4t3": (_Z(4, "fcc", T3, "core", rs="shell2"), [[0, 1, 2]], False),
    "z3out": (_Z(3, "bcc", [[1.25, -0.5, 0.0], [1.25, -0.5, 0.0], [-0.5, 0.5, 0.1]], "full"), [[0, 1]], False),
    "Haldane": ({"kind": "model", "name": "Haldane"}, [], False),
}

_TIER = {"tier": "quick"}


def _systems(tier):
    out = dict(SYSTEMS)
    if tier == "thorough":
        out.update(SYSTEMS_THOROUGH)
    return out


def _nw(spec):
    if spec["kind"] == "zoo":
        return spec["nw"]
    return {"KaneMele": 4, "Chiral": 2, "Haldane": 2}[spec["name"]]


def cases(tier, seed):
    from wbmc import kres
    for sysname, (spec, blocks, _) in _systems(tier).items():
        nw = _nw(spec)
        letters = [[n for n, _ in kres.alphabet(len(b))] for b in blocks]
        for warm in ((True,) if tier == "quick" else (False, True)):
            for perm in itertools.permutations(range(nw)):
                for U in itertools.product(*letters):
                    yield {"sys": sysname, "perm": list(perm), "U": list(U), "warm": warm}


def setup(tier, seed):
    from wbmc import kres
    from wannierberri.calculators import static as st
    _TIER["tier"] = tier
    s = kres.build_system(_Z(2, "sc", "generic", "core"), 0)
    Ef = np.linspace(-1, 1, 3)
    calcs = {"CumDOS": st.CumDOS(Efermi=Ef)}
    if tier == "thorough":
        calcs["AHC_tetra"] = st.AHC(Efermi=Ef, tetra=True)
    kres.run_grid(s, calcs, "c05")
    kres.build_system({"kind": "model", "name": "Chiral"}, 0)      # imports pythtb once, before the fork
    kres.eval_k(s, (0.1, 0.2, 0.3), kres.tabulators(s, "full"))


def _calcs_run(system, Ef, om, degenerate):
    from wbmc import kres
    from wannierberri.calculators import tabulate
    calcs = kres.integrators(system, Ef, om, "full", covariant_only=degenerate, tetra=(_TIER["tier"] == "thorough"))
    tabs = kres.tabulators(system, "full")
    tabs.pop("Energy", None)
    calcs["tab"] = tabulate.TabulatorAll(tabs, mode="grid")
    return calcs


def _observe(system, Ef, om, degenerate):
    from wbmc import kres, zoo
    out = {}
    for kn in KPTS:
        res = kres.eval_k(system, zoo.K_ALPHABET[kn], kres.tabulators(system, "full"))
        out.update({f"k:{kn}:{n}": a for n, a in res.items()})
    res = kres.run_grid(system, _calcs_run(system, Ef, om, degenerate), "c05")
    out.update({f"run:{n}": a for n, a in res.items()})
    return out


_REF = {}


def _reference(sysname, seed):
    from wbmc import kres
    key = (sysname, seed, _TIER["tier"])
    if key not in _REF:
        spec, blocks, degenerate = _systems("thorough")[sysname]
        s = kres.build_system(spec, seed)
        Ef, om = kres.energy_windows(s, kres.grid_kpoints(kres.fft_shape(s)))
        units = {}
        for kn in KPTS:
            units.update({f"k:{kn}:{n}": u for n, u in kres.units_of(kres.tabulators(s, "full")).items()})
        units.update({f"run:{n}": u for n, u in kres.units_of(_calcs_run(s, Ef, om, degenerate)).items()})
        _REF[key] = (Ef, om, _observe(s, Ef, om, degenerate), units)
    return _REF[key]


def rotate_block(system, block, U):
    """harness side: X_R <- W^+ X_R W for every matrix, W = U on `block`, identity elsewhere"""
    nw = system.num_wann
    W = np.eye(nw, dtype=complex)
    W[np.ix_(block, block)] = U
    for key in list(system._XX_R.keys()):
        X = system.get_R_mat(key)
        X1 = np.einsum("ia,rij...->raj...", W.conj(), X)
        X2 = np.einsum("raj...,jb->rab...", X1, W)
        system.set_R_mat(key, X2, reset=True)


def _warm(system):
    """populate every cached property the transformation has to invalidate, and use the system once"""
    from wbmc import kres
    _ = system.wannier_centers_red
    r = system.rvec
    for name in ("cRvec", "cRvec_shifted", "shifts_diff_red", "shifts_diff_cart", "shifts_left_cart",
                 "shifts_right_cart", "iR0", "index_R", "reverseR"):
        try:
            getattr(r, name)
        except Exception:
            pass
    kres.eval_k(system, (0.21, 0.34, -0.12), {"V": kres.tabulators(system, "core")["Velocity"]})


def _shift_invariants(system, base_centres_cart, perm):
    """reference model of the bookkeeping after reorder(perm)"""
    r = system.rvec
    L = np.array(system.real_lattice, dtype=float)
    want_cart = base_centres_cart[list(perm)]
    if np.abs(system.wannier_centers_cart - want_cart).max() > 1e-12:
        return "wannier_centers_cart", "centres are not the permuted centres"
    want_red = want_cart.dot(np.linalg.inv(L))
    if np.abs(system.wannier_centers_red - want_red).max() > 1e-10:
        return "wannier_centers_red", "cached reduced centres differ from cart.inv(lattice)"
    for side in ("shifts_left_red", "shifts_right_red"):
        sh = np.array(getattr(r, side))
        if sh.shape != want_red.shape or np.abs(sh - want_red).max() > 1e-10:
            return "rvec." + side, f"{side} is not the permuted reduced centres"
    want = r.iRvec.dot(L)[:, None, None, :] - want_cart[None, :, None, :] + want_cart[None, None, :, :]
    got = np.array(r.cRvec_shifted)
    if got.shape != want.shape or np.abs(got - want).max() > 1e-10:
        return "rvec.cRvec_shifted", "cRvec_shifted != R + t_j - t_i of the permuted centres"
    return None


def _site(name):
    n = name.split(":")[-1].split("/")[-1]
    if "qiao" in n:
        return "SpinVelocity_qiao"
    return n


def run_case(case, seed):
    from wbmc import kres
    spec, blocks, degenerate = _systems("thorough")[case["sys"]]
    perm = list(case["perm"])
    Ef, om, ref, units = _reference(case["sys"], seed)
    s = kres.build_system(spec, seed)
    base_cart = np.array(s.wannier_centers_cart, dtype=float).copy()
    for b in blocks:   # premise: the block really shares a centre
        if np.abs(base_cart[b] - base_cart[b[0]]).max() > 1e-12:
            return {"ok": False, "key": "harness:premise_cocentred", "detail": f"system={case['sys']} block {b} centres {base_cart[b].tolist()}"}
    if case["warm"]:
        _warm(s)
    for b, letter in zip(blocks, case["U"]):
        U = dict(kres.alphabet(len(b)))[letter]
        if letter != "I":
            rotate_block(s, b, U)
    s.reorder(perm)
    nontriv = (perm != sorted(perm)) or any(u != "I" for u in case["U"])
    mech = "reorder" if perm != sorted(perm) else "rotate"
    inv = _shift_invariants(s, base_cart, perm)
    got = _observe(s, Ef, om, degenerate)
    bad = kres.diff_report(ref, got, RTOL, units)
    if bad:     # the statement itself: outputs changed
        where = bad[0][0].split(":")[0]
        return {"ok": False, "key": f"{mech}:{'evaluate_k' if where == 'k' else 'run'}:{_site(bad[0][0])}", "nontrivial": nontriv,
                "detail": f"system={case['sys']} perm={perm} U={case['U']} on blocks {blocks} warm={case['warm']}: "
                          + "; ".join(f"{n}: |diff|={d:.3e} scale={sc:.3e} {m}" for n, d, sc, m in bad[:4])
                          + (f" [state: {inv[0]}: {inv[1]}]" if inv else "")}
    if inv is not None:   # outputs agree but the system object is left inconsistent (public rvec.derivative / centres are wrong)
        return {"ok": False, "key": f"reorder:state:{inv[0]}", "nontrivial": nontriv,
                "detail": f"system={case['sys']} perm={perm} warm={case['warm']}: {inv[1]}"}
    return {"ok": True, "nontrivial": (case["sys"], tuple(perm), tuple(case["U"]), case["warm"]) if nontriv else False,
            "obs": {"outputs": len(ref)}}


def finish(tier, cases, results):
    from collections import Counter
    return {"axes": {"systems": len(_systems(tier)), "permutations": "all (2, 6, 24)", "unitary_letters": {"2": 6, "3": 4},
                     "warm": [True] if tier == "quick" else [False, True], "k_points": list(KPTS), "grid": "NKFFT=2 per periodic direction"},
            "cases_by_system": dict(Counter(c["sys"] for c in cases))}
