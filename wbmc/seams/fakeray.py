"""In-process stand-in for the `ray` module, under the control of a schedule explorer.

Contract modelled (validated against the installed Ray by tools/ray_conformance.py):
  R1 the ready list of `wait` preserves input order and has at most `num_returns` elements;
  R2 if at call time at least `num_returns` refs are complete, exactly `num_returns` of the complete refs
     are returned -- WHICH ones is up to Ray (observed with Ray 2.48: refs whose values are already local
     are preferred, e.g. complete {0,1,2}, num_returns=2 -> [0,2]); in particular an answer need not be a
     superset of an earlier answer, nor a prefix of the complete refs in input order;
  R3 otherwise the call blocks until `num_returns` are complete, or the timeout fires and fewer are
     returned.
Tasks are evaluated eagerly at submission on a pickled copy of their arguments (Ray serialises
arguments at `.remote()` time and runs the task in another process); *when* a task counts as
complete is the scheduler's choice.  Results come back through a pickle round trip on every `get`.
The only scheduling point is `wait`: the explorer chooses the set of tasks complete at the moment
the call returns (any superset of the previous set).
"""
import itertools
import pickle

import cloudpickle


class ObjRef:
    __slots__ = ("blob",)

    def __init__(self, obj):
        self.blob = cloudpickle.dumps(obj)

    def load(self):
        return pickle.loads(self.blob)


class TaskRef:
    def __init__(self, tid, blob):
        self.tid = tid
        self.blob = blob

    def __repr__(self):
        return f"TaskRef({self.tid})"

    def __hash__(self):
        return hash(self.tid)

    def __eq__(self, other):
        return isinstance(other, TaskRef) and other.tid == self.tid


class RemoteFunction:
    def __init__(self, ray, func):
        self.ray = ray
        self.func = func

    def remote(self, *args, **kwargs):
        args = [a.load() if isinstance(a, ObjRef) else pickle.loads(cloudpickle.dumps(a)) for a in args]
        kwargs = {k: (a.load() if isinstance(a, ObjRef) else pickle.loads(cloudpickle.dumps(a))) for k, a in kwargs.items()}
        res = self.func(*args, **kwargs)
        return self.ray._new_task(cloudpickle.dumps(res))


class FakeRay:
    """one instance per execution; install with sys.modules['ray'] = instance"""

    def __init__(self, chooser, ncpu=1, max_timeouts=1, __name__="ray"):
        self.chooser = chooser
        self.ncpu = ncpu
        self.max_timeouts = max_timeouts
        self.timeouts = 0
        self.tasks = []
        self.completed = set()
        self.wait_log = []      # (num_returns, [ready tids], timeout?, tid of refs[0])
        self.horizon = 64
        self.get_log = []
        self.__name__ = "ray"
        self.__version__ = "fake"

    # --- module API used by wannierberri ---
    def is_initialized(self):
        return True

    def init(self, *a, **k):
        return None

    def shutdown(self):
        return None

    def cluster_resources(self):
        return {"CPU": float(self.ncpu)}

    def put(self, obj):
        return ObjRef(obj)

    def remote(self, func=None, **kw):
        if func is None:
            return lambda f: RemoteFunction(self, f)
        return RemoteFunction(self, func)

    def _new_task(self, blob):
        t = TaskRef(len(self.tasks), blob)
        self.tasks.append(t)
        return t

    def get(self, ref):
        if isinstance(ref, (list, tuple)):
            return [self.get(r) for r in ref]
        if isinstance(ref, ObjRef):
            return ref.load()
        self.completed.add(ref.tid)     # get blocks until the task is complete
        self.get_log.append(ref.tid)
        return pickle.loads(ref.blob)

    def wait(self, refs, num_returns=1, timeout=None, fetch_local=True):
        refs = list(refs)
        if len(self.wait_log) >= self.horizon:
            raise RuntimeError(f"horizon: more than {self.horizon} ray.wait calls in one run (livelock?)")
        assert len(set(r.tid for r in refs)) == len(refs), "ray.wait requires unique refs"
        assert 0 < num_returns <= len(refs), "ray.wait: num_returns out of range"
        inc = [r.tid for r in refs if r.tid not in self.completed]
        nready0 = len(refs) - len(inc)
        need = max(0, num_returns - nready0)
        default = tuple(inc[:need])
        options = []
        for k in range(len(inc) + 1):
            for S in itertools.combinations(inc, k):
                is_timeout = (nready0 + len(S) < num_returns)
                if is_timeout and (timeout is None or self.timeouts >= self.max_timeouts):
                    continue
                cost = max(len(set(S) - set(default)), len(set(default) - set(S)))
                options.append((cost, S, is_timeout))
        options.sort(key=lambda o: (o[0], len(o[1]), o[1]))
        assert options[0][1] == default and options[0][0] == 0
        c = self.chooser.choose(len(options), costs=[o[0] for o in options], label=f"wait(nr={num_returns},n={len(refs)})")
        cost, S, is_timeout = options[c]
        if is_timeout:
            self.timeouts += 1
        self.completed.update(S)
        ready_all = [r for r in refs if r.tid in self.completed]
        if len(ready_all) > num_returns:
            # R2: Ray picks any num_returns of the complete refs (listed in input order); default = the first ones
            subsets = list(itertools.combinations(range(len(ready_all)), num_returns))
            dflt = tuple(range(num_returns))
            subsets.sort(key=lambda t: (len(set(t) - set(dflt)), t))
            c2 = self.chooser.choose(len(subsets), costs=[len(set(t) - set(dflt)) for t in subsets],
                                     label=f"pick({num_returns} of {len(ready_all)})")
            ready = [ready_all[i] for i in subsets[c2]]
        else:
            ready = ready_all
        not_ready = [r for r in refs if r not in ready]
        self.wait_log.append((num_returns, [r.tid for r in ready], is_timeout, refs[0].tid))
        return ready, not_ready
