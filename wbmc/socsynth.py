"""Synthetic spin-orbit systems built through the public SystemSOC API (no GPAW, no files).

`make_soc_system` assembles a `SystemSOC` from two zoo `System_R` objects (spin-up, spin-down, which may
live on different R-vector sets / orderings) and, optionally, a spin-orbit term passed through the
real `SystemSOC.set_soc_R` with a synthetic `SOC` object and checkpoint stand-ins (the only
attributes `set_soc_R` reads: num_bands, num_kpts, mp_grid, kpt_red, v_matrix).

Also plain-numpy reference Fourier sums used by the oracles of C25/C26/C33 (no library code on
the reference path except the stored R-space arrays themselves).
"""
import itertools
import types

import numpy as np

from . import zoo


def reordered_copy(s0, order):
    """the same System_R with its R-vector list stored in a different order (order = permutation)"""
    from wannierberri.system.system_R import System_R
    from wannierberri.fourier.rvectors import Rvectors
    s = System_R(silent=True, name="reord")
    s.set_real_lattice(s0.real_lattice)
    s.num_wann = s0.num_wann
    s.wannier_centers_cart = s0.wannier_centers_cart.copy()
    s.rvec = Rvectors(lattice=s.real_lattice, iRvec=s0.rvec.iRvec[list(order)],
                      shifts_left_red=s.wannier_centers_red)
    for key, X in s0._XX_R.items():
        s.set_R_mat(key, X[list(order)].copy())
    s.set_pointgroup()
    return s


def order_of(kind, n):
    if kind == "id":
        return list(range(n))
    if kind == "rev":
        return list(range(n))[::-1]
    if kind == "rot1":
        return list(range(1, n)) + [0]
    if kind == "swap01":
        return [1, 0] + list(range(2, n))
    raise KeyError(kind)


def mp_kpoints(mp_grid):
    mp = np.array(mp_grid, dtype=int)
    return np.array([[i / mp[0], j / mp[1], k / mp[2]] for i in range(mp[0]) for j in range(mp[1]) for k in range(mp[2])])


def fake_chk(nw, mp_grid, rng=None):
    kpt = mp_kpoints(mp_grid)
    nk = len(kpt)
    if rng is None:
        v = [np.eye(nw, dtype=complex) for _ in range(nk)]
    else:
        v = []
        for _ in range(nk):
            q, _r = np.linalg.qr(rng.normal(size=(nw, nw)) + 1j * rng.normal(size=(nw, nw)))
            v.append(q)
    return types.SimpleNamespace(num_bands=nw, num_kpts=nk, mp_grid=np.array(mp_grid, dtype=int),
                                 kpt_red=kpt, v_matrix=v)


def soc_impulse_basis(nw, nspin):
    """names of a basis of admissible SOC data that is constant in k (so it lands on R=0):
    ('d', s, c, i, j, 're'|'im') spin-diagonal Hermitian units, ('o', c, i, j, 're'|'im') up-down units"""
    out = []
    for s in range(nspin):
        for c in range(3):
            for i in range(nw):
                for j in range(i, nw):
                    out.append(("d", s, c, i, j, "re"))
                    if j > i:
                        out.append(("d", s, c, i, j, "im"))
    if nspin == 2:
        for c in range(3):
            for i in range(nw):
                for j in range(nw):
                    out.append(("o", c, i, j, "re"))
                    out.append(("o", c, i, j, "im"))
    return out


def soc_data(nw, nspin, mp_grid, kind, rng):
    """dict ik -> array (nspin,nspin,3,nw,nw); spin-diagonal blocks Hermitian in the band indices"""
    kpt = mp_kpoints(mp_grid)
    nk = len(kpt)
    data = {}
    if kind == "generic":
        # smooth in k: a few real-space harmonics with generic coefficients -> admissible (H(k) Hermitian)
        Rs = [(0, 0, 0), (1, 0, 0), (0, 1, 0), (0, 0, 1)]
        coef = {}
        for R in Rs:
            coef[R] = 0.3 * (rng.normal(size=(nspin, nspin, 3, nw, nw)) + 1j * rng.normal(size=(nspin, nspin, 3, nw, nw)))
        for ik, k in enumerate(kpt):
            d = np.zeros((nspin, nspin, 3, nw, nw), dtype=complex)
            for R in Rs:
                ph = np.exp(2j * np.pi * np.dot(k, R))
                d += coef[R] * ph
                if R != (0, 0, 0):   # add the -R partner so that the spin-diagonal blocks are Hermitian at every k
                    cm = np.zeros_like(coef[R])
                    for s in range(nspin):
                        cm[s, s] = coef[R][s, s].conj().swapaxes(-1, -2)
                    d += cm * np.conj(ph)
            for s in range(nspin):
                d[s, s] = 0.5 * (d[s, s] + d[s, s].conj().swapaxes(-1, -2))
            data[ik] = d
    else:
        tag = tuple(kind)
        d = np.zeros((nspin, nspin, 3, nw, nw), dtype=complex)
        if tag[0] == "d":
            _, s, c, i, j, part = tag
            if part == "re":
                d[s, s, c, i, j] += 1
                if i != j:
                    d[s, s, c, j, i] += 1
            else:
                d[s, s, c, i, j] += 1j
                d[s, s, c, j, i] += -1j
        else:
            _, c, i, j, part = tag
            d[0, 1, c, i, j] = 1.0 if part == "re" else 1j
        for ik in range(nk):
            data[ik] = d.copy()
    return data


def overlap_data(nw, mp_grid, kind, rng):
    nk = int(np.prod(mp_grid))
    if kind == "identity":
        return {ik: np.eye(nw, dtype=complex) for ik in range(nk)}
    out = {}
    base = [rng.normal(size=(nw, nw)) + 1j * rng.normal(size=(nw, nw)) for _ in range(3)]
    kpt = mp_kpoints(mp_grid)
    for ik in range(nk):   # k-dependent (harmonics R=(1,0,0) and (0,1,1)): the overlap has weight away from R=0
        out[ik] = (np.eye(nw) + 0.2 * base[0] + 0.15 * base[1] * np.exp(2j * np.pi * kpt[ik][0])
                   + 0.1 * base[2] * np.exp(2j * np.pi * (kpt[ik][1] + kpt[ik][2])))
    return out


def make_soc_system(up, down=None, *, with_soc=True, mp_grid=(2, 2, 2), soc_kind="generic", overlap="identity",
                    v="identity", theta=0.0, phi=0.0, alpha_soc=1.0, seed=0, tag=""):
    """SystemSOC(up, down) [+ set_soc_R(...)]. `up`/`down` are System_R objects."""
    from wannierberri.system.system_soc import SystemSOC
    from wannierberri.w90files.soc import SOC
    s = SystemSOC(system_up=up, system_down=down, silent=True)
    s.set_pointgroup()
    if not with_soc:
        return s
    nw = up.num_wann
    nspin = s.nspin
    rng = zoo.rng_for(seed, "socsynth", nw, nspin, tuple(mp_grid), str(soc_kind), tag)
    data = soc_data(nw, nspin, mp_grid, soc_kind, rng)
    ovl = overlap_data(nw, mp_grid, overlap, rng) if nspin == 2 else None
    soc = SOC(data=data, NK=len(data), overlap=(ovl if ovl is not None else {i: np.eye(nw, dtype=complex) for i in data}))
    rngv = None if v == "identity" else zoo.rng_for(seed, "socsynth-v", nw, tag)
    chk_up = fake_chk(nw, mp_grid, rngv)
    chk_dn = fake_chk(nw, mp_grid, rngv) if nspin == 2 else None
    s.set_soc_R(soc, chk_up=chk_up, chk_down=chk_dn, theta=theta, phi=phi, alpha_soc=alpha_soc)
    return s


# ------------------------------------------------------------------ plain references

def fourier_plain(iRvec, X_R, k):
    """sum_R exp(2 pi i k.R) X(R)  — no centre phases (they are a diagonal unitary: spectra do not depend on them)"""
    ph = np.exp(2j * np.pi * (np.asarray(iRvec) @ np.asarray(k, dtype=float)))
    return np.tensordot(ph, X_R, axes=(0, 0))


def H_plain(system, k):
    """Hamiltonian of a System_R at k from its stored R-space arrays (plain Fourier sum, Hermitised)"""
    H = fourier_plain(system.rvec.iRvec, system.get_R_mat("Ham"), k)
    return 0.5 * (H + H.conj().T)


def H_soc_plain(soc_system, k):
    """Hamiltonian of a SystemSOC at k: interlaced up/down blocks + Ham_SOC (if any); plain sums"""
    n = soc_system.num_wann
    H = np.zeros((n, n), dtype=complex)
    H[::2, ::2] = H_plain(soc_system.system_up, k)
    H[1::2, 1::2] = H_plain(soc_system.system_down, k)
    if soc_system.has_soc:
        X = fourier_plain(soc_system.rvec.iRvec, soc_system.get_R_mat("Ham_SOC"), k)
        H += 0.5 * (X + X.conj().T)
    return H


def phonon_freq(E):
    return np.sqrt(np.abs(E)) * np.sign(E)


PAULI = np.array([[[0, 1], [1, 0]], [[0, -1j], [1j, 0]], [[1, 0], [0, -1]]], dtype=complex)
LEVI = np.zeros((3, 3, 3))
for _a, _b, _c in itertools.permutations(range(3)):
    LEVI[_a, _b, _c] = np.linalg.det(np.eye(3)[[_a, _b, _c]])
