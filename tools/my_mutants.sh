#!/bin/bash
# mutants for the run()-level explorers; usage: tools/my_mutants.sh > mutants/run_level.log
M="/venv/bin/python /verif/tools/mutant.py --jobs ${JOBS:-4}"
# C12
$M c12_a run_grid.py "remotes_calculated_old = remotes_calculated_old | remotes_calculated_bool" "remotes_calculated_old = remotes_calculated_bool" C12
$M c12_b run_grid.py "                Kp = dK_list[ir]" "                Kp = dK_list[ir - 1]" C12
$M c12_c result/tabresult.py "        diff -= np.round(diff)  # account for periodicity
        norm = np.linalg.norm(diff, axis=2)" "        norm = np.linalg.norm(diff, axis=2)" C12
# C10
$M c10_a run_grid.py "if abs(fac) > 1.e-8}" "if fac > 1.e-8}" C10 C11
$M c10_b run_grid.py "            factors_diff = factors[:len(factors_old)] - factors_old" "            factors_diff = factors_old - factors[:len(factors_old)]" C10
$M c10_c grid/Kpoint.py "        self.set_factor(0)  # the K-point is \"dead\" but can be used for restarting again from an intermediate refinement level" "        pass" C10 C06
# C11
$M c11_a run_grid.py "            for ink in range(nk_prev, nk, Klist_part):" "            for ink in range(0, nk, Klist_part):" C11
$M c11_c run_grid.py "                write_factors(file_Klist_path=file_Klist_path, factors=factors, iter=i_iter_global)" "                write_factors(file_Klist_path=file_Klist_path, factors=factors_old, iter=i_iter_global)" C11
# C06
$M c06_a grid/Kpoint.py "        newfac = self.factor / np.prod(ndiv)" "        newfac = self.factor / ndiv[0] ** 3" C06
$M c06_b grid/Kpoint.py "        if self.refinement_level != other.refinement_level:
            return False" "" C06 C10
$M c06_c symmetry/point_symmetry.py "                del st[i]
        return np.array(st)" "                del st[i - 1]
        return np.array(st)" C06
$M c06_d grid/Kpoint.py "        adpt_shift = (-self.dK + dK_adpt) / 2." "        adpt_shift = (self.dK - dK_adpt) / 2." C06
$M c06_e grid/Kpoint.py "                self.set_result(other.get_result())
        self.add_factor(other.factor)" "                self.set_result(other.get_result())
                return
        self.add_factor(other.factor)" C06 C10
