ENGINES = [
 {"name": "sched-dfs", "path": "wbmc/sched.py", "kind_free_text": "stateless choice-tree explorer (deviation-bounded DFS over environment answers) + in-process Ray model wbmc/seams/fakeray.py", "serves_properties": ["C12"]},
 {"name": "refine-bfs", "path": "wbmc/refine.py", "kind_free_text": "explicit enumeration of steered refinement / restart histories through the real run(), snapshots of run()'s K-point list as ground truth", "serves_properties": ["C10", "C11"]},
 {"name": "space", "path": "wbmc/engine.py", "kind_free_text": "exhaustive enumeration of explicit product spaces, executed on the real code in 16 forked workers; evidence, known-findings and replay handling",
  "serves_properties": []},
]
NOTES = "All checks: /venv/bin/python /verif/check.py <ID> --tier quick|thorough. They import wannierberri from /repo's working tree (no build step)."
NOT_APPLICABLE = {}
CHECKS = {
 "C04": {"level": "exploration",
         "technique": "exhaustive differential enumeration on the real evaluate_k/run(): k vs k+G over system x k x G alphabets; random_gauge on/off with the unitary source replaced by an enumerated alphabet",
         "text": "8-11 systems x 7 k x 10 G for periodicity; 12-18 systems with exact degeneracies (planted point degeneracies of size 2 and 3, H0 (x) 1_m with generic external matrices, double_spin, KaneMele at TRIM points, k.p Dirac) x every combination of alphabet unitaries per multiplet (all cyclic offsets on fully degenerate grids) x 4 output classes; scipy.stats.unitary_group is replaced by the enumerated alphabet and the multiplets handed to it are checked against a chain-link model; 1134 / 1748 cases",
         "note": "unitaries only from the alphabet (a generating set); exact degeneracies only; num_wann <= 4 (6); 2x2x2 grid; three formula sites (SHC qiao, InjectionCurrent, ShiftCurrent) are known findings"},
 "C05": {"level": "exploration",
         "technique": "exhaustive product of all permutations through System_R.reorder x alphabet rotations of co-centred blocks, differential against the untransformed system",
         "text": "5-9 systems, all 2/6/24 permutations of the Wannier functions through the real reorder, 6 (4) alphabet unitaries per co-centred block applied to every R-matrix, warm/cold object history; evaluate_k with all tabulators at 3 k-points and run() on a 2x2x2 grid with ~35 static and dynamic calculators + TabulatorAll must equal the untransformed system; plus a reference model of the shift bookkeeping after reorder; 338 / 2672 cases",
         "note": "num_wann <= 4; blocks of size 2 and 3; alphabet unitaries only; one grid and 3 k-points; tolerance 1e-8 of the array norm"},
 "C22": {"level": "exploration",
         "technique": "exhaustive enumeration of lattice x Monkhorst-Pack mesh x k-ordering through BKVectors.from_kpoints against a brute-force shell / integer neighbour reference",
         "text": "full product of 15 lattices (8 zoo cells + hexagonal/tetragonal c/a families) x 8 meshes x 6 ordering families (thorough 24 x 15 x 6): completeness sum_b w b b^T = 1, integer multiset {b} = -{b} with equal weights, every selected length class equals the brute-force set of all mesh vectors of that length (box from Cauchy-Schwarz, independent of the code's), k+b = k_nb + G exactly in integers, shell choice independent of ordering",
         "note": "cells with |a|~1 and no near-degenerate shell lengths, default tolerances, meshes <= 6^3, transpositions capped at 64 for NK > 64; a refusal of the shell search ('Could not find a complete set') is counted as no_solution, not a violation"},
 "C23": {"level": "exploration",
         "technique": "exhaustive enumeration of meshes x orderings x coordinate variants x single defects through get_mp_grid / grid_from_kpoints against an exact integer reference",
         "text": "all 216 meshes with n_i <= 6, cubes to 12 (thorough 20), all 1D meshes to 100 (thorough: every mesh n_i <= 8); complete ordering alphabet (identity, reversal, all rotations, all adjacent transpositions) up to 36 (quick) / 216 (thorough) points; coordinate variants (+-1e-9, integer shifts); defects (point removed / duplicated / replaced / added, sub- and super-meshes): dimensions returned, each mesh point selected exactly once, incomplete meshes rejected",
         "note": "defective lists keep coordinates in [0,1); off-mesh points far from the 1e-5 threshold; +-1e-9 perturbations only up to n=20; rejection is the documented ValueError"},
 "C24": {"level": "exploration",
         "technique": "exhaustive small-scope enumeration of frozen x outer window pairs x init x iterations on the real wannierise, against a reference selection model",
         "text": "all frozen x outer window pairs over a complete edge alphabet (including edges cutting engineered multiplets of 2 and 3) x init mode (amn, random, restart, restart without windows) x num_iter x localise x mix_ratio_z, plus explicit frozen_states, on synthetic in-memory Wannier90 data generated from a hidden tight-binding model; at every k: V^dagger V = 1, every reference-frozen band fully in the span, zero rows outside the outer selection (1e-10)",
         "note": "small synthetic data (NB<=5, NW<=3, meshes <=2x2x2), spectra from a level alphabet with gaps {0, 0.005, >=0.3}, no tie edges, threshold 1e-2, sitesym=False, parallel=False; only window pairs satisfying wannierise's own preconditions; one wannierise representative per class of windows mapped to identical masks by the real select_window_degen"},
 "C11": {"level": "fault_enumeration", "engine": "refine-bfs",
         "technique": "exhaustive enumeration of stop points x restart splits x storage modes x directory-listing permutations on the real run()",
         "text": "for steered refinements of N=2..3 (quick) / 2..4 (thorough) iterations on 1D/2D/3D/symmetric grids, every stopping point, every composition of the remaining iterations into restart segments, both storage modes (allow_restart, dump_results) and every permutation of the factors_iter-* directory listing at every restart (the glob seen by run_grid is a choice point of the schedule explorer) are executed as chains of real run() calls in one directory; every result saved or returned after a restart must equal the uninterrupted run's result for the same global iteration",
         "note": "restarts only at iteration boundaries (as the statement says); restart_iteration=-1; directory listing modelled as an arbitrary permutation; per-K results scripted"},
 "C10": {"level": "model_checking", "engine": "refine-bfs",
         "technique": "explicit-state exploration of all steered refinement histories through the real run(), oracle on every state",
         "text": "every history of refinement choices (every subset of adpt_fac live K-points at every iteration) up to depth 2 (quick) / 3 (thorough) is executed through the real run() in the storage modes memory / allow_restart / dump_results, on 1D, 2D, 3D and symmetric (Oh-like, C3z) grids, adpt_mesh 2/3/(2,1,1), adpt_fac 1/2, tensor rank 0/1; after every iteration the integral run() saved and returned is compared with sum_K factor_K*R(K) recomputed from a snapshot of run()'s live K-point list taken at that moment; weights must sum to 1 and all storage modes must agree",
         "note": "per-K results are scripted generic values (run()'s bookkeeping does not look at them); refinement is steered through the result's max criterion; dead points are never selected; depth and grid size bounded as stated"},
 "C12": {"level": "model_checking", "engine": "sched-dfs",
         "technique": "stateless exhaustive exploration of every ray.wait answer sequence (deviation-bounded DFS) on the real run()/process() with an in-process Ray model",
         "text": "the ray module is replaced by a fake whose only scheduling point is ray.wait; every answer allowed by Ray's contract (ready list in input order, at most num_returns, first-num_returns-ready, timeouts) is enumerated for 2-5 remote tasks x 1-3 reported CPUs x 0/1 refinement iterations x grid/path tabulation; each schedule is one complete run() on the real code and must return the serial result; quick explores all schedules within 2 deviations of the in-order schedule, thorough all of them (<=2 timeouts)",
         "note": "Ray itself is modelled by its wait/get/put/remote contract (tools/ray_conformance.py compares the model with the installed Ray); worker environment and >5 tasks are outside the bound"},
 "C15": {"level": "exploration",
         "technique": "exhaustive small-scope enumeration (all gap patterns x window edges) against a reference partition model",
         "text": "every sorted band array with <=5 (quick) / <=6 (thorough) bands over a 6-letter gap alphabet, every pair of window edges from the edge alphabet, both include_degen settings, both return modes, Kramers on/off, is run through the real select_window_degen/get_borders/get_bands_in_range/find_degen and compared with a chain-linked reference partition; tabulators are run on systems with exact 2- and 3-fold multiplets",
         "note": "gaps exactly equal to the threshold are outside the alphabet; multiplets larger than the band count explored are not reached"},
}
for e in ENGINES:
    if e["name"] == "space":
        e["serves_properties"] = sorted(CHECKS)
