ENGINES = [
 {"name": "space", "path": "wbmc/engine.py", "kind_free_text": "exhaustive enumeration of explicit product spaces, executed on the real code in 16 forked workers; evidence, known-findings and replay handling",
  "serves_properties": []},
]
NOTES = "All checks: /venv/bin/python /verif/check.py <ID> --tier quick|thorough. They import wannierberri from /repo's working tree (no build step)."
NOT_APPLICABLE = {}
CHECKS = {
 "C15": {"level": "exploration",
         "technique": "exhaustive small-scope enumeration (all gap patterns x window edges) against a reference partition model",
         "text": "every sorted band array with <=5 (quick) / <=6 (thorough) bands over a 6-letter gap alphabet, every pair of window edges from the edge alphabet, both include_degen settings, both return modes, Kramers on/off, is run through the real select_window_degen/get_borders/get_bands_in_range/find_degen and compared with a chain-linked reference partition; tabulators are run on systems with exact 2- and 3-fold multiplets",
         "note": "gaps exactly equal to the threshold are outside the alphabet; multiplets larger than the band count explored are not reached"},
}
for e in ENGINES:
    e["serves_properties"] = sorted(CHECKS)
