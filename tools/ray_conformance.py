#!/venv/bin/python
"""Conformance of the fake-Ray `wait` contract (R1-R3 in wbmc/seams/fakeray.py) against the installed Ray.

File-gated tasks let this script decide which tasks are complete; for every scenario the real
`ray.wait` answer is compared with the answer the model computes for the same completed set.
Prints one JSON line; exit 0 if all scenarios conform, 3 if Ray contradicts the model, 4 if Ray
cannot be started here (environment, not a verdict).
"""
import itertools
import json
import os
import shutil
import sys
import tempfile
import time


def model_allows(n, completed, num_returns, got):
    """R1+R2: an input-ordered list of distinct complete refs, of length min(num_returns, #complete)"""
    ready = [i for i in range(n) if i in completed]
    return (got == sorted(set(got)) and set(got) <= set(ready) and len(got) == min(num_returns, len(ready)))


def main():
    try:
        import ray
        ray.init(num_cpus=4, include_dashboard=False, log_to_driver=False, ignore_reinit_error=True)
    except Exception as e:   # pragma: no cover
        print(json.dumps({"ray": "unavailable", "error": repr(e)[:300]}))
        return 4
    d = tempfile.mkdtemp(prefix="rayconf_", dir="/dev/shm" if os.path.isdir("/dev/shm") else None)
    results = []
    ok = True
    try:
        @ray.remote(num_cpus=0.01)
        def gated(path, i):
            import os, time
            while not os.path.exists(path):
                time.sleep(0.01)
            return i

        n = 3
        scen = 0
        # scenarios: sequences of (newly completed set, num_returns); includes the one that breaks a non-monotone consumer
        sequences = [
            [({2}, 1), ({0, 1}, 2), (set(), 3)],
            [({0}, 1), ({2}, 2), ({1}, 3)],
            [({1, 2}, 1), (set(), 2), ({0}, 3)],
            [({0, 1, 2}, 1), (set(), 2), (set(), 3)],
            [({1}, 1), ({0}, 1), ({2}, 2)],
        ]
        for seq in sequences:
            scen += 1
            gates = [os.path.join(d, f"g{scen}_{i}") for i in range(n)]
            refs = [gated.remote(gates[i], i) for i in range(n)]
            completed = set()
            for new, nr in seq:
                for i in new:
                    open(gates[i], "w").close()
                completed |= new
                # make sure the gated tasks have really finished before asking
                for i in completed:
                    ray.get(refs[i])
                time.sleep(0.05)
                ready, notready = ray.wait(refs, num_returns=nr, timeout=5)
                got = [refs.index(r) for r in ready]
                conf = model_allows(n, completed, nr, got)
                ok &= conf
                first = [i for i in range(n) if i in completed][:nr]
                results.append({"scenario": scen, "completed": sorted(completed), "num_returns": nr, "real": got,
                                "is_first_in_input_order": got == first, "conforms": conf})
            for g in gates:
                open(g, "w").close()
            ray.get(refs)
        # R3 timeout: nothing complete, short timeout -> fewer than num_returns
        gates = [os.path.join(d, f"t_{i}") for i in range(2)]
        refs = [gated.remote(gates[i], i) for i in range(2)]
        ready, _ = ray.wait(refs, num_returns=2, timeout=0.2)
        conf = (len(ready) == 0)
        ok &= conf
        results.append({"scenario": "timeout", "real": len(ready), "model": 0, "conforms": conf})
        for g in gates:
            open(g, "w").close()
        ray.get(refs)
    finally:
        try:
            ray.shutdown()
        except Exception:
            pass
        shutil.rmtree(d, ignore_errors=True)
    print(json.dumps({"ray": ray.__version__, "conforms": ok, "checks": results}))
    return 0 if ok else 3


if __name__ == "__main__":
    sys.exit(main())
