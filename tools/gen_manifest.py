#!/venv/bin/python
"""Regenerates MANIFEST.json from tools/manifest_src.py (one entry per implemented property)."""
import json, os, sys
here = os.path.dirname(os.path.dirname(os.path.abspath(__file__)))
sys.path.insert(0, os.path.join(here, "tools"))
import manifest_src as M
props = [json.loads(l) for l in open(os.path.join(here, "properties.jsonl"))]
ids = [p["id"] for p in props]
checks = []
for pid in ids:
    if pid not in M.CHECKS:
        continue
    c = M.CHECKS[pid]
    e = {"property_id": pid,
         "quick_cmd": f"/venv/bin/python /verif/check.py {pid} --tier quick",
         "thorough_cmd": f"/venv/bin/python /verif/check.py {pid} --tier thorough",
         "evidence_file": f"evidence/{pid}.json",
         "replay_cmd_template": f"/venv/bin/python /verif/check.py {pid} --replay {{path}}",
         "engine": c.get("engine", "space"),
         "level_claimed": {"category": c["level"], "text": c["text"], "design_ref": f"DESIGN.md §5 {pid}"},
         "level_note": c["note"],
         "technique": c["technique"]}
    checks.append(e)
na = [{"property_id": pid, "reason": M.NOT_APPLICABLE.get(pid, "check not built yet (work in progress; see DESIGN.md §5 for the planned exhaustive enumeration)")}
      for pid in ids if pid not in M.CHECKS]
man = {"version": 1,
       "setup_cmd": "/venv/bin/python /verif/tools/setup_check.py",
       "hooks": {"guard": "WANNIERBERRI_VERIF", "enable": "no source hooks: seams are sys.modules['ray'], run_grid.glob and user-supplied Calculators; checks import /repo's working tree directly",
                 "baseline_off_cmd": "cd /repo && /venv/bin/python -m pytest -ra -q -p no:cacheprovider --timeout=900 --continue-on-collection-errors",
                 "source_commits": [], "add_only": True},
       "engines": M.ENGINES, "checks": checks, "notes": M.NOTES, "not_applicable": na}
json.dump(man, open(os.path.join(here, "MANIFEST.json"), "w"), indent=1)
import jsonschema
jsonschema.validate(man, json.load(open("/root/.vp/MANIFEST.schema.json")))
print("MANIFEST ok:", len(checks), "checks,", len(na), "not_applicable")
