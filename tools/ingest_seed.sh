#!/bin/bash
# usage: ingest_seed.sh <ID>   -- copy /tmp/seed_<ID>/{patch,demo,notes} into /verif/seeded/<ID>-1 (and -2 if patch2 exists)
id=$1
for n in 1 2; do
  s=""; [ $n = 2 ] && s=2
  p=/tmp/seed_$id/patch$s.diff; d=/tmp/seed_$id/demo$s.py
  [ -s $p ] || continue
  dst=/verif/seeded/$id-$n; mkdir -p $dst
  cp $p $dst/patch.diff; [ -f $d ] && cp $d $dst/demo.py
  [ -f /tmp/seed_$id/notes.md ] && cp /tmp/seed_$id/notes.md $dst/notes.md
  [ -f $dst/meta.json ] || cat > $dst/meta.json <<EOM
{"property": "$id", "origin": "independent sub-agent given only the property text and a scratch worktree (nothing from /verif)", "variant": $n,
 "needs_to_manifest": "see notes.md", "files_changed": $(grep '^+++ b/' $p | sed 's|+++ b/||' | /venv/bin/python -c "import sys,json; print(json.dumps([l.strip() for l in sys.stdin]))")}
EOM
  echo ingested $dst
done
