#!/venv/bin/python
"""setup_cmd: verify the tool chain from files on disk only; warm numba caches."""
import os, sys, subprocess
os.environ.setdefault("PYTHONHASHSEED", "0")
sys.path.insert(0, "/repo")
sys.path.insert(0, os.path.dirname(os.path.dirname(os.path.abspath(__file__))))
import wannierberri, numpy, scipy, jsonschema
assert os.path.realpath(wannierberri.__file__).startswith("/repo"), wannierberri.__file__
from wbmc import engine, zoo
s = zoo.make_system(2)
import wannierberri as wb
e = wb.evaluate_k(s, k=(0.1, 0.2, 0.3), quantities=["energy"])
assert e.shape == (2,)
print("setup ok: wannierberri", wannierberri.__version__, "from", wannierberri.__file__)
