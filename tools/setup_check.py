#!/venv/bin/python
"""setup_cmd: verify the tool chain from files on disk only; warm numba caches."""
import os, sys, subprocess
os.environ.setdefault("PYTHONHASHSEED", "0")
sys.path.insert(0, "/repo")
sys.path.insert(0, os.path.dirname(os.path.dirname(os.path.abspath(__file__))))
import wannierberri, numpy, scipy, jsonschema
assert os.path.realpath(wannierberri.__file__).startswith("/repo"), wannierberri.__file__
from wbmc import engine, zoo
s = zoo.make_system(2)
import wannierberri as wb
e = wb.evaluate_k(s, k=(0.1, 0.2, 0.3), quantities=["energy"])
assert e.shape == (2,)
print("setup ok: wannierberri", wannierberri.__version__, "from", wannierberri.__file__)

# determinism self-test: one recorded ray.wait schedule and one refinement history, each replayed twice,
# must give byte-identical observations (otherwise the harness does not own all nondeterminism)
import numpy as np
from wbmc import sched
from wbmc.props import c12, c10
cfg = {"kind": "grid", "div": [3, 1, 1], "ncpu": 1, "niter": 1, "calc": "scripted"}
obs = []
for rep in range(2):
    with engine.quiet():
        o, log = c12.execute(cfg, 0, sched.Chooser([3, 1]), "quick")
    obs.append((sorted((k, v.tobytes()) for k, v in o.items()), log["waits"], log["gets"]))
assert obs[0] == obs[1], "C12 schedule replay is not deterministic"
cfg10 = {"sys": "cubic", "div": [2, 2, 2], "mesh": 2, "fac": 1, "irred": True, "rank": 0, "depth": 1}
snaps = []
for rep in range(2):
    with engine.quiet():
        fail, firsts = c10.first_choices(cfg10, 0)
        fail2, sn = c10.check_history(cfg10, 0, [firsts[1]])
    assert fail is None and fail2 is None
    snaps.append([(it, s, d.tobytes()) for it, s, d in sn])
assert snaps[0] == snaps[1], "C10 history replay is not deterministic"
print("determinism self-test ok")
