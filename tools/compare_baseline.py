#!/venv/bin/python
"""compare a junit xml of the repository's suite with /root/.vp/BASELINE.json: which baseline-stable tests do not pass now"""
import json, sys
import xml.etree.ElementTree as ET
base = json.load(open("/root/.vp/BASELINE.json"))
stable = set(base["stable_pass"])
tree = ET.parse(sys.argv[1])
status = {}
for tc in tree.iter("testcase"):
    name = tc.get("classname") + "::" + tc.get("name")
    st = "passed"
    for ch in tc:
        if ch.tag in ("failure", "error"):
            st = ch.tag
        elif ch.tag == "skipped":
            st = "skipped"
    status[name] = st
missing = sorted(s for s in stable if s not in status)
bad = sorted(s for s in stable if s in status and status[s] != "passed")
print(f"baseline stable: {len(stable)}; now passed: {sum(1 for s in stable if status.get(s) == 'passed')}; not passed: {len(bad)}; not run: {len(missing)}")
for s in bad:
    print("  NOT PASSED:", s, status[s])
for s in missing[:30]:
    print("  NOT RUN:", s)
