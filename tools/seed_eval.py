#!/venv/bin/python
"""Evaluate a seeded change kept under /verif/seeded/<name>/ (patch.diff, demo.py, meta.json).

usage: seed_eval.py <name> [--checks C06 C10 ...] [--tier quick] [--jobs N] [--tests tests/test_x.py ...]

1. the patch must apply to a scratch copy of /repo's current package (patch -p1);
2. the demo must exit 0 on the unpatched copy and non-zero on the patched copy (PYTHONPATH = copy);
3. optionally the listed repository test files are run (--serial) against a scratch worktree with the patch;
4. every listed check is run against the patched copy (WB_REPO / VERIF_OUT): CAUGHT / MISSED.
Results are merged into seeded/<name>/meta.json under "evaluation".
"""
import argparse
import json
import os
import shutil
import subprocess
import sys
import time

ROOT = os.path.dirname(os.path.dirname(os.path.abspath(__file__)))


def run(cmd, cwd=None, env=None, timeout=3600):
    t = time.time()
    try:
        r = subprocess.run(cmd, cwd=cwd, env=env, capture_output=True, text=True, timeout=timeout)
        return r.returncode, (r.stdout + r.stderr)[-3000:], time.time() - t
    except subprocess.TimeoutExpired:
        return 124, "TIMEOUT", time.time() - t


def main():
    ap = argparse.ArgumentParser()
    ap.add_argument("name")
    ap.add_argument("--checks", nargs="*", default=[])
    ap.add_argument("--tests", nargs="*", default=[])
    ap.add_argument("--tier", default="quick")
    ap.add_argument("--jobs", default="8")
    ap.add_argument("--patch", default="patch.diff")
    ap.add_argument("--demo", default="demo.py")
    ap.add_argument("--tests_str", default="", help="pytest invocations separated by ';' (shlex syntax), e.g. \"tests/test_run.py -k 'soc or kp' ; tests/test_tetra.py\"")
    ap.add_argument("--reset", action="store_true", help="forget the verdicts of earlier evaluations")
    a = ap.parse_args()
    sd = os.path.join(ROOT, "seeded", a.name)
    patch = os.path.join(sd, a.patch)
    demo = os.path.join(sd, a.demo)
    meta_path = os.path.join(sd, "meta.json")
    meta = json.load(open(meta_path)) if os.path.exists(meta_path) else {}
    ev = meta.setdefault("evaluation", {})
    if a.reset:
        ev.pop("checks", None)
    base = f"/tmp/se_{a.name}"
    shutil.rmtree(base, ignore_errors=True)
    clean, mut = os.path.join(base, "clean"), os.path.join(base, "mut")
    for d in (clean, mut):
        os.makedirs(d)
        shutil.copytree("/repo/wannierberri", os.path.join(d, "wannierberri"), ignore=shutil.ignore_patterns("__pycache__"))
        os.symlink("/repo/tests", os.path.join(d, "tests"))     # some demonstrations read the repository's test data
    try:
        rc, out, _ = run(["patch", "-p1", "-d", mut, "-i", patch])
        ev["patch_applies"] = (rc == 0)
        if rc:
            print("PATCH DOES NOT APPLY:", out[-500:])
            ev["patch_error"] = out[-500:]
            return 2
        head = subprocess.run(["git", "-C", "/repo", "log", "--oneline", "-1"], capture_output=True, text=True).stdout.strip()
        ev["repo_head"] = head
        if os.path.exists(demo):
            res = {}
            for tag, d in (("clean", clean), ("mutated", mut)):
                env = dict(os.environ, PYTHONPATH=d, OMP_NUM_THREADS="2", OPENBLAS_NUM_THREADS="2")
                rc, out, dt = run(["/venv/bin/python", demo], cwd=d, env=env, timeout=900)
                res[tag] = {"rc": rc, "seconds": round(dt, 1), "tail": out[-400:]}
                print(f"demo on {tag}: rc={rc} ({dt:.0f}s)")
            ev["demo"] = res
            ev["demo_ok"] = (res["clean"]["rc"] == 0 and res["mutated"]["rc"] != 0)
        import shlex
        invocations = ([a.tests] if a.tests else []) + [shlex.split(x) for x in a.tests_str.split(";") if x.strip()]
        if invocations:
            wt = os.path.join(base, "wt")
            rc, out, _ = run(["git", "-C", "/repo", "worktree", "add", "--detach", wt, "HEAD"])
            try:
                shutil.copy("/repo/wannierberri/_version.py", os.path.join(wt, "wannierberri", "_version.py"))
                rc, out, _ = run(["git", "-C", wt, "apply", patch])
                assert rc == 0, out
                env = dict(os.environ, OMP_NUM_THREADS="2", OPENBLAS_NUM_THREADS="2")
                # `import wannierberri.utils.mmn2uHu` first: several fixtures use wannierberri.utils without importing it
                code = ("import sys, pytest, wannierberri.utils.mmn2uHu; sys.exit(pytest.main(['-q', '-p', 'no:cacheprovider', "
                        "'--serial', '--timeout=1800'] + sys.argv[1:]))")
                for inv in invocations:
                    rc, out, dt = run(["/venv/bin/python", "-c", code] + inv, cwd=wt, env=env, timeout=6 * 3600)
                    lines = [l for l in out.splitlines() if l.strip()]
                    ev.setdefault("tests", {})[" ".join(inv)] = {"rc": rc, "seconds": round(dt), "summary": lines[-1] if lines else "", "failed": [l for l in lines if l.startswith("FAILED") or l.startswith("ERROR")][:20]}
                    print("tests:", " ".join(inv), "->", rc, lines[-1] if lines else "")
            finally:
                run(["git", "-C", "/repo", "worktree", "remove", "--force", wt])
        for pid in a.checks:
            env = dict(os.environ, WB_REPO=mut, VERIF_OUT=os.path.join(mut, "out"))
            rc, out, dt = run(["/venv/bin/python", os.path.join(ROOT, "check.py"), pid, "--tier", a.tier, "--jobs", a.jobs], env=env, timeout=4 * 3600)
            keyl = [l.strip() for l in out.splitlines() if l.strip().startswith("key=")]
            verdict = "CAUGHT" if (rc == 1 and "VIOLATION" in out) else ("MISSED" if rc == 0 else f"ERROR rc={rc}")
            ev.setdefault("checks", {})[f"{pid}:{a.tier}"] = {"verdict": verdict, "seconds": round(dt), "key": keyl[0][:300] if keyl else None}
            print(f"{a.name} {pid} {a.tier}: {verdict} {keyl[0][:160] if keyl else ''}")
    finally:
        shutil.rmtree(base, ignore_errors=True)
        json.dump(meta, open(meta_path, "w"), indent=1)
    return 0


if __name__ == "__main__":
    sys.exit(main())
