#!/venv/bin/python
"""Run checks against a mutated scratch copy of the package.

usage: mutant.py <name> <file relative to repo> <old text> <new text> <ID> [<ID> ...] [--tier quick] [--jobs N]
   or: mutant.py --patch <patch.diff> <name> <ID> [<ID> ...]

Copies /repo/wannierberri to /tmp/mut_<name>/wannierberri, applies the textual replacement (must match
exactly once) or the patch, runs `check.py <ID>` with WB_REPO/VERIF_OUT pointing there, prints one line
per check: CAUGHT (exit 1 + VIOLATION) / MISSED (exit 0) / ERROR, and removes the scratch copy.
"""
import argparse
import os
import shutil
import subprocess
import sys


def main():
    ap = argparse.ArgumentParser()
    ap.add_argument("--patch")
    ap.add_argument("--tier", default="quick")
    ap.add_argument("--jobs", default="8")
    ap.add_argument("--keep", action="store_true")
    ap.add_argument("rest", nargs="+")
    a = ap.parse_args()
    if a.patch:
        name, ids = a.rest[0], a.rest[1:]
    else:
        name, rel, old, new = a.rest[:4]
        ids = a.rest[4:]
    d = f"/tmp/mut_{name}"
    shutil.rmtree(d, ignore_errors=True)
    os.makedirs(d)
    shutil.copytree("/repo/wannierberri", os.path.join(d, "wannierberri"), ignore=shutil.ignore_patterns("__pycache__"))
    try:
        if a.patch:
            r = subprocess.run(["patch", "-p1", "-d", d, "-i", os.path.abspath(a.patch)], capture_output=True, text=True)
            if r.returncode:
                print("PATCH FAILED", r.stdout, r.stderr)
                return 2
        else:
            p = os.path.join(d, rel if rel.startswith("wannierberri/") else "wannierberri/" + rel)
            s = open(p).read()
            if s.count(old) != 1:
                print(f"ERROR: old text occurs {s.count(old)} times in {rel}")
                return 2
            open(p, "w").write(s.replace(old, new))
        env = dict(os.environ, WB_REPO=d, VERIF_OUT=os.path.join(d, "out"))
        rc_all = 0
        for pid in ids:
            r = subprocess.run(["/venv/bin/python", "/verif/check.py", pid, "--tier", a.tier, "--jobs", a.jobs],
                               capture_output=True, text=True, env=env)
            viol = [l for l in r.stdout.splitlines() if l.startswith("VIOLATION")]
            keyl = [l.strip() for l in r.stdout.splitlines() if l.strip().startswith("key=")]
            if r.returncode == 1 and viol:
                print(f"{name} {pid}: CAUGHT  {keyl[0][:200] if keyl else ''}")
            elif r.returncode == 0:
                print(f"{name} {pid}: MISSED")
                rc_all = 1
            else:
                print(f"{name} {pid}: ERROR rc={r.returncode} {r.stderr[-300:]}")
                rc_all = 2
        return rc_all
    finally:
        if not a.keep:
            shutil.rmtree(d, ignore_errors=True)


if __name__ == "__main__":
    sys.exit(main())
