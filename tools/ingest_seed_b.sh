#!/bin/bash
# usage: ingest_seed_b.sh <ID>  -- second round: copy /tmp/seed_<ID>b/{patch,demo,notes} into /verif/seeded/<ID>-3 (and -4 if patch2 exists)
id=$1
for n in 1 2; do
  s=""; [ $n = 2 ] && s=2
  src=/tmp/seed_${id}b
  p=$src/patch$s.diff; d=$src/demo$s.py
  [ -s $p ] || continue
  dst=/verif/seeded/$id-$((n+2)); mkdir -p $dst
  cp $p $dst/patch.diff; [ -f $d ] && cp $d $dst/demo.py
  [ -f $src/notes.md ] && cp $src/notes.md $dst/notes.md
  [ -f $dst/meta.json ] || cat > $dst/meta.json <<EOM
{"property": "$id", "origin": "independent sub-agent (second round) given only the property text, one-line descriptions of the first-round ideas to avoid, and a scratch worktree (nothing from /verif)", "variant": $((n+2)),
 "needs_to_manifest": "see notes.md", "files_changed": $(grep '^+++ b/' $p | sed 's|+++ b/||' | /venv/bin/python -c "import sys,json; print(json.dumps([l.strip() for l in sys.stdin]))")}
EOM
  echo ingested $dst
done
