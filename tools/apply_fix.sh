#!/bin/bash
# usage: tools/apply_fix.sh <diff> <ID> <commit message file>   -- apply a proposed fix to /repo, run the quick check, commit if it passes
set -e
diff=$(realpath $1); id=$2; msgfile=$(realpath $3)
git -C /repo apply --check "$diff"
git -C /repo apply "$diff"
if /venv/bin/python /verif/check.py $id --tier quick --jobs ${JOBS:-8} > /tmp/apply_fix_$id.log 2>&1; then
  git -C /repo add -A wannierberri
  git -C /repo commit -q -F "$msgfile"
  echo "COMMITTED $(git -C /repo log --oneline | head -1)"
  tail -1 /tmp/apply_fix_$id.log | cut -c1-300
else
  echo "CHECK STILL FAILS (fix left applied in working tree, not committed):"
  grep -A1 "^VIOLATION" /tmp/apply_fix_$id.log | cut -c1-400 | head -12
fi
