#!/venv/bin/python
"""addfinding.py <property> <status fixed|known> <key pattern> <what> [commit]"""
import json, sys
p = '/verif/known_findings.json'
d = json.load(open(p))
prop, status, key, what = sys.argv[1:5]
e = {"property": prop, "status": status, "key": key, "what": what}
if len(sys.argv) > 5:
    e["commit"] = sys.argv[5]
    e["what"] = f"fixed: property={prop} {sys.argv[5]} " + what
d['findings'].append(e)
json.dump(d, open(p, 'w'), indent=1)
print("ok", len(d['findings']))
