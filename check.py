#!/venv/bin/python
"""Single entry point:  check.py <ID> --tier quick|thorough [--replay FILE] [--jobs N]

Runs the bounded exhaustive exploration of one property against the code in /repo's working tree.
exit 0: property held on everything explored (known findings are printed as KNOWN-FINDING lines)
exit 1: "VIOLATION property=<id> replay=<path>"
"""
import argparse
import os
import sys

ENV = {"PYTHONHASHSEED": "0", "OMP_NUM_THREADS": "1", "OPENBLAS_NUM_THREADS": "1",
       "MKL_NUM_THREADS": "1", "NUMBA_NUM_THREADS": "1", "WANNIERBERRI_VERIF": "1",
       "RAY_DEDUP_LOGS": "0", "PYTHONDONTWRITEBYTECODE": "1",
       # glibc: keep large blocks on the heap (forked workers otherwise spend their time in mmap/munmap)
       "MALLOC_MMAP_THRESHOLD_": "268435456", "MALLOC_TRIM_THRESHOLD_": "536870912", "MALLOC_TOP_PAD_": "67108864"}


def main():
    if any(os.environ.get(k) != v for k, v in ENV.items()):
        os.environ.update(ENV)
        os.execv(sys.executable, [sys.executable] + sys.argv)
    here = os.path.dirname(os.path.abspath(__file__))
    sys.path.insert(0, here)
    # the working tree of /repo must be what is imported
    repo = os.environ.get("WB_REPO", "/repo")
    sys.path.insert(0, repo)
    ap = argparse.ArgumentParser()
    ap.add_argument("id")
    ap.add_argument("--tier", default=os.environ.get("VERIF_TIER", "quick"), choices=["quick", "thorough"])
    ap.add_argument("--replay", default=None)
    ap.add_argument("--jobs", type=int, default=int(os.environ.get("VERIF_JOBS", "16")))
    ap.add_argument("--seed", type=int, default=int(os.environ.get("VERIF_SEED", "0") or 0))
    a = ap.parse_args()
    os.chdir(here)
    from wbmc import engine
    import wannierberri
    assert os.path.realpath(wannierberri.__file__).startswith(os.path.realpath(repo)), wannierberri.__file__
    modname = f"wbmc.props.{a.id.lower()}"
    if a.replay:
        rc = engine.run_replay(modname, a.replay, a.seed)
    else:
        rc = engine.run_check(modname, a.tier, a.seed, a.jobs)
    sys.stdout.flush()
    os._exit(rc)


if __name__ == "__main__":
    main()
